#!/usr/bin/env python3
"""Regenerates /verif/MANIFEST.json from the table below. CLAIMED lists the properties whose checks are built."""
import json, sys
CLAIMED = sys.argv[1].split(',') if len(sys.argv) > 1 else []
T = {
 "C01": ("codec layout tables agree between decoder and encoder; decoded frames never alias the read buffer; fast path only patches the request id and is gated on the dirty bits; narrowing length conversions are refused and the retained frame length is the plain sum of the announced lengths (no narrow-type arithmetic); HTTP/1: nothing parses the URI of the outgoing fasthttp request (the request line is written as set); HTTP/2 body chunks are copied out of the read buffer, never wrapped or kept; TCP relay forwards a clone and closes with flush; bytes a read returns together with EOF are delivered before the connection is closed; HTTP/2 to HTTP/2 keeps the received URL (only a copy with single fields changed)", "layout extraction + alias taint + guarded conversion on SSA", "HTTP/1.1 and HTTP/2 URI/header/body value fidelity; tars re-encode equality"),
 "C02": ("request id restored before every encode; stream table only touched under its mutex; entry removed before dispatch; id generators atomic; one Write = one critical section; reset ping-pong clients are closed, not pooled; every decoded frame gets its own stream-level context; recycled per-stream buffer contexts are wiped completely; timer callbacks compare against the generation id captured when the timer was armed; an HTTP/2 body handed to the proxy is a copy, never a view of the connection read buffer; decoded xprotocol frames never alias the read buffer; a reset ping-pong exchange never leaves its connection in the idle list; on HTTP/1 the next request is read only after this response was written; frozen lockset on the HTTP/2 stream tables", "must-precede + lockset + sibling cross-check on SSA", "behaviour under concrete interleavings"),
 "C03": ("one-shot tokens are atomic-only; terminal handlers run only on the CAS-winner edge and whoever takes the response token produces the outcome; the reply is produced only by the worker phase machine; timers armed on every end-of-request path (whenever the last request part is handed to the upstream request, only endStream decides) and stopped before recycle; the wake-up token is a confined one-slot channel, sent without blocking and drained before every re-entry of the phase machine; the retry-in-preparation flag is consumed where the retry decision is taken; frozen lockset on a stream's listener list", "atomic-field discipline + dominance + who-may-call", "liveness / time bounds"),
 "C04": ("host normalised to lower case on both sides (every lookup made for a request); every configured domain of a virtual host is indexed (the domain loop is left early only with an error); lookup order equals the documented precedence; wildcard list sorted longest first; first-match loop in configuration order; route tables under their lock and a route list read under the lock never outlives it while writers update in place; lookups write no router state; a route is selected only behind its common matchers and its own path predicate (all-of); RPC routes evaluate every configured header on the header map", "dataflow + CFG order + lockset + effect analysis", "per-input matcher results (regex, header values)"),
 "C05": ("every host a policy returns passed Health() on that path (or is nil); returned hosts come from the balancer's own host set; host set fields are write-once and the snapshot is published by one atomic store; scan loops cover the whole set; the subset balancer returns no host only after its fallback was consulted; a new cluster becomes visible to lookups only after it was filled; the per-address health-word registry is append-only; a host set's backing array is never recycled, appended to or taken from a pool; a sampling policy gives up only after a full scan", "guarded-return analysis (greatest fixed point over SSA phis, modular interprocedural summaries)", "that nil is returned only when no host is healthy beyond the full-scan shape"),
 "C06": ("cumulative-weight scan uses an exact strict idiom so each entry owns exactly w draws and a zero weight is unreachable; draw range = sum of scanned weights with a single writer; EDF deadline update has the 1/weight shape from the current (not a stale) deadline over a min-heap, with every host of the set scheduled; the heap's sift-down examines the right child whenever it exists; the equal-weights shortcut compares every host; the WRR weight is the clamped configured weight; the slow-start factor is floored by MinWeightPercent; frozen lockset on the EDF scheduler", "pattern + difference reasoning on SSA", "the WRR bounded-lag inequality (numeric)"),
 "C07": ("need-more-data guards are sufficient and tight for every byte the decoder touches; Drain happens after the guard and drains exactly the frame length; short input returns (nil,nil) without draining; matchers answer Again below their read width; HTTP/2 frame reader: bounded accesses, re-read loops advance their offset, one drain last by the reported size, HPACK fed only after the whole header block arrived; auto-detection aggregates matcher answers soundly; the read buffer is recycled only when empty; the tars decoder parses and reports errors only for a complete package; a need-more-data guard never exceeds the minimal frame of a protocol the decoder delegates to; the typed HTTP/2 frame parsers stay within the payload", "linear non-negative bounds analysis on SSA", "HTTP/2 continuation state, HTTP/1 (fasthttp)"),
 "C08": ("no unguarded index/slice on peer bytes in codecs, matchers and mosn.io/pkg/header; peer-sized allocations only after the frame is buffered; third-party parsers only under recover; read loop under recover+close; HTTP/2 frame reader makes progress and consumes all-or-nothing; HPACK decoder bounded, peer integers bounded before narrowing conversions; a decoder that returns a frame drains exactly that frame (no re-decode loop)", "bounds analysis + panic containment + who-may-call", "HPACK / x/net framer fork, hessian/thrift/tars internals"),
 "C09": ("a leased ping-pong client reaches exactly one of {bound to the stream, back in idle list, closed} on every path; close-me flags set on reset are consumed at destroy; idle list and counters under the pool mutex; a stream leaves the stream table before its listeners are notified; a client stream is reset only with a reason for which the pool closes the connection or where the connection is known closed; every closing event retires the pool client; idle-list elements are accessed under the pool mutex only", "typestate/leak check on CFG + write-never-read + lockset", "counter values over histories"),
 "C10": ("every breaker Increase / gauge Inc is paired with its Decrease/Dec by one of four recognised pairing idioms (event-paired decrements run for every closing event and no other); no unguarded decrement; the retry state is never dropped without releasing its slot; the pools' own connection counts are taken once per created connection", "pairing table + control equivalence", "that every request eventually terminates"),
 "C11": ("stop-accept precedes drain; drain precedes close/exit; the drain loop is bounded and reads the active-stream gauge; the read buffer handed over with a connection is its own and is never dropped (or the hand-over tolerates nil); the HTTP/2 graceful GOAWAY carries the highest accepted stream id and frames for refused streams are discarded; a server-side GoAway never closes the connection; the hand-over flag of a connection is raised and read only under the write lock; a connection reads into growable storage of its own and handed-over bytes are copied into it; on graceful stop every port-owning listener drains, whatever its previous state; frozen lockset on the listener state", "ordered-call / dominance rules", "everything cross-process: fd passing, transfer, signal timing"),
 "C12": ("every live-state mutator records the config on every success path; new tables are built aside and swapped in one guarded store; no replace-style update inside a loop over parts of one assignment; recorders store what they are given on every path (skips only for nil, missing key, whole-value DeepEqual); a new cluster is published in the live registry only after the update handler filled it; live virtual-host positions equal configuration positions; recorded host lists are read back from the live host set; no recorder runs on a path that ends in an error; a binary search in an update path runs on a slice that is still sorted; appending a known host updates it; frozen lockset on router wrappers and cluster host sets", "must-pass-through + lockset + loop-invariance", "observational equivalence with a fresh start"),
 "C13": ("(verify_client, require_client_cert) -> ClientAuth decision table; InsecureSkipVerify only under insecure_skip or a custom verifier; CA pool feeds RootCAs and ClientCAs and is built (or cached by content) from the CA bytes read now; an updated listener's TLS manager is built after the fields it reads were copied; plaintext only behind the inspector branch; SNI -> ALPN -> default order with the ALPN test given the client's whole list once per context in configuration order; a server name selects a context only through a whole-name or label-boundary comparison after lower-casing; rebuilds of an SDS-backed context are serialised by the provider mutex; a TLS client session cache is private to its config; frozen lockset on the SDS provider state", "decision-table extraction + guarded store + CFG order", "handshake cryptography, certificate matrix"),
 "C14": ("no path from a receive-filter run to an upstream send bypasses processError; every hijack API raises directResponse; that branch always leaves for the send-filter phase; the chain iterates once, in index order, and a re-match/re-choose ask is always recorded so the pass resumes at the asking filter; a recycled (pooled) chain is fully reset, cursors to 0; TerminateStream installs its reply only when none is installed; the stored filter factory list is an ordered image of the configuration", "must-pass-through on CFG + must-set + loop shape", "third-party filter behaviour"),
 "C15": ("every subset entry's host set is the HostMatches filter of the cluster set for the entry's own key/values; ChooseHost delegates only to {matched entry, full set when no criteria, fallback}; fallback switch matches the three policies; key/value lists of sibling subsets never share a backing array and pointers the builder retains (cache keys) are freshly allocated; request-path code never mutates the route's shared match criteria; host metadata lookups distinguish a missing label from an empty one; the builder's selection cache answers only under a full comparison of the index sets", "value-flow identity + delegation enumeration", "equivalence of the two builders over all inputs"),
 "C16": ("read-modify-write of the shared health word is a single atomic step; flag algebra shape; threshold automaton resets the opposite counter, compares with the threshold, flips flag and changed together; stale results ignored; thresholds are positive; the active-check condition is written only by the automaton; every check runs under a freshly armed timeout; one health word per address: get-or-create returns the registry's entry, the registry is append-only, a host takes the word of its own address", "atomic-RMW detector + shape obligations on SSA", "timing of the checker goroutines"),
 "C17": ("header finalisation order route->vhost->global, every configured addition applied, join only under append; path/host rewrite apply exactly the configured action; redirect/direct response return before any pool is touched; retry decided before the response is marked started; budget decremented on every retry path; retry re-selects a host; one global deadline per request, never re-armed by a retry; timeout sources applied lowest priority first; request finalisation (header additions, rewrites) is never on the retry path; a rewritten path reaches the HTTP/2 upstream; the scheme-redirect port table is {(https,80),(http,443)}", "ordered-call + dominance + last-writer order", "header values, regex rewrites"),
 "C18": ("every DATA payload is sliced by the value awaitFlowControl returned; that value is clamped by window, max frame size and remaining bytes and debited from both windows before return; every raise of a send window and every stream removal is followed by cond.Broadcast() before the frame handler returns; a WINDOW_UPDATE credits the connection window only for stream id 0; the frame reader makes progress, consumes all-or-nothing and feeds HPACK once per header block; the HPACK encoder evicts whenever its table size changes or grows and applies every size it will announce; a new client stream gets its send window and is registered under one hold of the connection mutex; frozen lockset on the client connection's shared state", "value-flow + clamp set + must-pass-through up the caller chain", "HPACK/frame wire compatibility with x/net"),
 "C19": ("every custom (Un)MarshalJSON pair moves the same set of shadow fields in both directions and decodes the very type it encodes on every successful path; every json:\"-\" field is covered by such a pair or declared runtime-only; no duplicate keys, no embedded-marshaler hijack; MarshalJSON clears fields only depending on emptiness, never on content; the dump reassembles every effective map; recorded host lists are read back from the live host set; parse-time rewrites are idempotent", "pair-mirror extraction + type-graph lint", "defaulting / value equivalence, sample configs"),
 "C20": ("every path in the config type graph from a dump root to TLSConfig.PrivateKey is redacted, unconditionally (a skip only when the path is empty or the marshaler provably suppresses the field); redaction only writes memory freshly allocated by the redactor; admin handlers reach the config only through the redacting accessors; answering a dump request writes no files", "type-graph enumeration + access-path abstraction + freshness + who-may-call", "secrets inside untyped map[string]interface{} filter configs"),
}
R8 = {
 "C01": ("a frame's two views of its raw bytes stay consistent: every store to rawData is followed by a store of a slice of it to rawMeta", ""),
 "C03": ("response-started is raised only where the response headers are written to the client on every path", ""),
 "C04": ("the variable matchers of a route combine as an or of and-groups, for item lists of every length (finite-domain fixed point against a reference monitor)", "finite-domain abstract interpretation of the matcher loop"),
 "C05": ("a pushed host set is always installed: every host update handler reaches Cluster.UpdateHosts on every path and the manager always runs the handler", "must-pass-through over function values"),
 "C06": ("the cluster looked up for a request is the one the weighted draw returned, and only the draw reads a weighted entry's name", "value-flow identity, who-may-read"),
 "C07": ("the HTTP/2 Dispatch loops are left only on Decode's own error result", "loop-exit guard analysis"),
 "C08": ("HPACK decoder reservations are sized by received bytes, never by an announced length", ""),
 "C09": ("the HTTP/1 connection's single stream slot is released before the response is delivered and not written afterwards", ""),
 "C10": ("the retries breaker is consulted only after the slot of the retry that just ended was released", "dominance"),
 "C11": ("no address of a loop variable (go 1.18 semantics) escapes its iteration in the shutdown code", "loop-variable escape analysis"),
 "C12": ("no address of a loop variable (go 1.18 semantics) escapes its iteration in the dump and update code", "loop-variable escape analysis"),
 "C13": ("no address of a loop variable escapes in pkg/mtls; the time a peer certificate is verified against is read during the handshake (zero or a clock read reachable from a handshake callback)", "loop-variable escape analysis, interprocedural value origin"),
 "C14": ("directResponse is raised only together with a freshly installed reply, never over a response that already went through the send filters", "dominance"),
 "C15": ("a configured subset selector is dropped only as an exact duplicate of an earlier one", "condition-origin analysis"),
 "C16": ("each stored threshold derives from its own configuration field, also through a helper tuple", "value-flow identity"),
 "C17": ("the retry decision table of doRetryCheck over (reset reason, retry_on, status readable): overflow never, without retry_on only connection failure", "finite-domain abstract interpretation (decision table)"),
 "C18": ("a header block the connection HPACK encoder produced is written on every path (or the encoding failed / the block is empty)", "must-pass-through with error-edge exemption"),
 "C19": ("stream filters never write into a route's per_filter_config map (the object the dump marshals)", "taint to map-update sinks"),
}
R9 = {
 "C01": "cloning an HTTP/2 header map keeps every value of every name; the tars reader starts behind the length prefix and field 5 classifies a package in every int width",
 "C02": "HTTP/2: a header block is HPACK-encoded and written under one hold of the connection mutex",
 "C03": "a try ended by the global timeout never reaches a positive retry decision (guard or decision table)",
 "C06": "EDF pick: Peek and the re-queue of the picked entry form one critical section",
 "C07": "one stream context per decoded frame (Get() between any two Decode calls, in the xprotocol and HTTP/2 loops)",
 "C08": "HTTP/2: a peer's SETTINGS values are range-checked before they are applied; no mutex is re-acquired in a callee while held",
 "C09": "the client stream handed out for a new try is new, re-initialised as a whole, or a slot tested unused",
 "C10": "the client stream of a retry is not the destroyed one of the previous try (its listeners release the slot)",
 "C11": "a handed-over TCP connection is matched against its own address and both wildcard listeners of its port",
 "C12": "a route list read under the virtual host's lock is not used after the lock is released",
 "C13": "trust anchors come only from the configured CA: no certificate pool is written except a freshly created one",
 "C14": "a suspended filter pass is resumed at the absolute position of the asking filter",
 "C15": "the pre-index builder advances the host position exactly once per visited host",
 "C16": "a health-check session is stopped only for deleted hosts and started only for new ones",
 "C17": "the route's retry policy fields are the configured ones, unadjusted",
 "C18": "the header splitting loops are left only after a frame carrying END_HEADERS (linear implication); encode-and-write atomic; peer SETTINGS validated",
 "C19": "a dump is decoded into an empty model",
 "C20": "redacted bytes handed out are not a view of pooled storage",
}
R10 = {
 "C01": "HTTP/2: a header block is encoded and written under one hold of the connection mutex (HPACK tables of both ends stay equal)",
 "C02": "HTTP/2 frame reader: a header block is fed to the connection HPACK decoder once, after all of it arrived",
 "C03": "cleanStream is called only where the exchange has a terminal outcome (frozen who-may-call table with guards)",
 "C04": "every configured header condition is looked up and compared before the next one is considered",
 "C05": "the balancer a snapshot publishes is built from the host set the same snapshot publishes",
 "C06": "the balancer a snapshot publishes is built from the host set (and weights) the same snapshot publishes",
 "C07": "the HTTP/2 client preface is asked for until it was read",
 "C09": "a circuit-breaker counter moves by exactly one per Increase/Decrease",
 "C10": "a circuit-breaker counter moves by exactly one per Increase/Decrease (no saturation, no clamping)",
 "C12": "an update of a listener's stream filters is always installed",
 "C13": "the provider list is an ordered image of the configured tls contexts",
 "C14": "every hijack API replaces headers, data and trailers of the stored response",
 "C16": "the changed value of the threshold automaton reaches the callbacks and the gauge as it is",
 "C17": "the rewritten host becomes the Host of the HTTP/1.1 upstream request whenever it is set",
 "C18": "the strings of an indexed HPACK literal are decoded whatever the emit switch says",
 "C19": "a pointer-receiver MarshalJSON is never on a configuration type stored by value",
}
R11 = {
 "C07": "a fresh stream context also behind an answered decode error",
 "C01": "an empty query string is forwarded: the query variable is set whenever the target has a query and the '?' is decided on the variable being set; the HTTP/1 client decides on a bodiless HEAD response from the request it sent; an HTTP/2 HEAD response keeps the upstream's Content-Length; a thrift ONEWAY message is a oneway request",
 "C02": "bytes an HTTP/1 upstream sent beyond the response retire the connection (leftover in the reader leads to OnGoAway)",
 "C03": "the request-sent flag is only set together with the global deadline; a retry does not use up a round of the bounded phase loop",
 "C04": "'no virtual host' only without a default (decision table over {-1, other}); the host of an address without port is normalised like one with a port; a matcher constructor's nil result is never stored; the RPC literal shortcut is armed only for a non-regex matcher; the key/value route index keeps the first route of a key/value",
 "C06": "a weighted-cluster entry keeps its weight plus what an entry of the same name holds (entries add up to the total); the weighted pick is tried hosts x (max/min weight) times before the unweighted fallback",
 "C08": "a stream-level error of the HTTP/2 framer leaves its frame consumed (typestate over the error's type test and Drain; two recorded findings); server callbacks used only where they exist; an impossible tars length prefix is a decode error; the loop goes on behind an error only where the buffer is shown to have got shorter",
 "C10": "every receive entry of a counted downstream stream drives the phase loop that un-counts it; no stream is reset while the connection's stream table lock is held; a half-sent oneway request is reset; the counter moves on every path (no exception for an unlimited resource); in all three pools a stream is created and gets its accounting listener in one critical section shared with the close path",
 "C11": "a buffer filled with the bytes to hand over starts empty; a listener configured without a host matches the inherited wildcard socket; in-flight trailers processed after a graceful GOAWAY; a handed-over unix listener keeps its path; pool Shutdown notifies clients outside the pool lock; the drain counter cannot be excluded by the metrics configuration (one recorded finding)",
 "C12": "a removed listener is deleted from the stored configuration; an update of an existing listener that is refused has replaced nothing (one recorded finding: refusal by the TLS context)",
 "C13": "each tls context of a listener is registered under its own provider index (loop-variant argument); an unusable cluster tls config fails closed; matched names are lower-cased; plaintext hand-back only without providers or with the inspector",
 "C14": "a local reply cancels a pending re-run of the receiver filters; a pass of another phase starts at the first filter; the cursor is not written after the status handler of a stopped or terminated pass",
 "C15": "every call of the subset combination builder passes an index inside the key list (linear bounds)",
 "C16": "a health-check timeout event is attributed to its check before it counts as a failure",
 "C17": "a configured num_retries is used as it is; every route rule type's FinalizeRequestHeaders applies the base rule's header actions; a case-insensitive path match hands the rewrite the request's own spelling; a retry arms the global timer only behind the never-sent edge; a one-character regex_rewrite pattern is kept",
 "C18": "a HEADERS frame with an empty fragment is accepted (the refusal implies a fragment length below 0, linear bounds); the peer's SETTINGS_HEADER_TABLE_SIZE reaches the HPACK encoder on both connection types",
 "C19": "the stored cluster_manager section keeps every field of the loaded one except the cluster lists",
 "C20": "raw JSON sections (extend configs) reach the admin surface only through a redactor that walks the JSON; the walk writes only into the tree encoding/json allocated for it; raw static resources pass the raw redactor; the envoy style /config_dump needs a redactor (one recorded finding)",
}
R12 = {
 "C01": "a recycled codec buffer keeps nothing of the frame it held",
 "C02": "a local reply replaces headers, data and trailers of the stored response",
 "C03": "the global timeout resets the try that is current when it fires; the close handler touches listed streams only under the list lock",
 "C05": "the binary search for a host to remove uses the order the members were sorted by",
 "C07": "the byte the TLS inspector peeked is counted by every Read that hands it out",
 "C10": "the global timeout resets the try that is current when it fires",
 "C11": "every mosn sets the hand-over schedule from the configured graceful timeout when it starts",
 "C12": "the hosts of a load assignment are the concatenation of every locality's converted endpoints",
 "C13": "a custom verifier verifies the first presented certificate",
 "C14": "the filter lists of a chain only grow by append (registration order is never permuted)",
 "C15": "the subset builders' Range callbacks never end the iteration",
 "C17": "the regex_rewrite substitution is always expanded as a template",
 "C18": "HPACK dynamic table: size comparisons with maxSize keep on equality",
 "C19": "live virtual-host positions equal configuration positions",
 "C20": "a redacted raw JSON section is the re-encoded redacted document, not a text substitution",
}
R13 = {
 "C01": "the copy of a frame has a raw frame only when the original retains one; an unmodified tars package is forwarded as received; an empty query keeps its '?' on HTTP/2 too",
 "C03": "a direct response that passed the sender filters is sent even when an upstream reset is seen there; a request whose phase loop runs out of rounds gets its terminal round and is cleaned; the default global timeout covers every value for which no timer is armed",
 "C04": "a matcher that does not compile refuses the route instead of being skipped",
 "C06": "the weighted-cluster total is summed and kept in 64 bits and the draw is made only for a non-zero total",
 "C10": "a go-away HTTP/2 client that closes gives its connection gauge back at the close event, exactly once (slot-identity test)",
 "C12": "every field a listener update applies to the live listener is stored into its recorded configuration",
 "C13": "a cluster whose tls secrets are pending does not connect in plaintext; a cluster manager tls config that cannot be built installs the failing manager; the pool-keying tls hash reads the fields that decide how the upstream is verified",
 "C15": "xds subset values and host metadata values are converted with the same accessor, and the envoy.lb struct is no metadata entry of its own",
 "C16": "the session checker takes a new check id only after the check in progress has its result",
 "C17": "a reset is not retried because of a previous attempt's status; a regex route hands the rewrite what the regex matched",
 "C18": "a frame of an unknown type is ignored by both HandleFrame functions",
}
R14 = {
 "C04": "the result of a configured route expression is type-tested before it is used as a condition",
 "C01": "a multipart request body is not pre-parsed and re-written by the HTTP/1 server; the dubbothrift slow path keeps the received version byte",
 "C02": "unsolicited HTTP/1 upstream bytes are recognised by a flag raised exactly from request written to response read; a retry gets a stream object no other goroutine holds",
 "C07": "automatic protocol detection tries the matchers in registration order, never in map order",
 "C09": "a client that returns to a pool that was shut down is closed, not pooled; a reused stream slot must be tested unused",
 "C11": "an inherited socket is taken only by the listener or admin service configured for its address (port and IP), and only a TCP listener is parsed as one",
 "C12": "cluster updates, host updates and cluster removals of the cluster manager are serialised by one mutex held from before the read of the current state",
 "C13": "xds: a downstream tls context without a usable certificate is refused, not served in plaintext; a tls context without server_name is not matched by name",
 "C14": "an upstream reset seen while a local reply is pending neither grants a retry nor replaces the reply",
 "C19": "directory-mode dumps give every cluster / virtual host its own file",
 "C20": "raw extension-config text is dumped unchanged only when a token scan finds no private-key name in it",
}
R15 = {
 "C01": "a decoded frame retains the frame, not the rest of the read buffer; an HTTP/2 header block is HPACK-decoded once, after all of it arrived",
 "C02": "an upstream stream is destroyed before its response is handed over",
 "C03": "the body and trailer parts of a message are sent whenever they are present, so the end of a message is never skipped; the phase machine ends a request only where the stream was cleaned",
 "C06": "the EDF scheduler is built before the balancer is handed out",
 "C07": "a decoded frame retains the frame, not the rest of the read buffer",
 "C08": "while an HTTP/2 header block is open only a CONTINUATION passes the frame-order check",
 "C09": "an HTTP/1 client connection is kept only when reader and dispatched buffer are established empty; an upstream stream is destroyed before its response is handed over",
 "C10": "the phase machine ends a request only where the stream was cleaned (gauges given back)",
 "C11": "a taken inherited socket is marked in the caller's slice, never removed by re-slicing",
 "C12": "the dump mark is taken before the configuration is snapshotted, so an update during a dump is written by the next one",
 "C13": "a connection pool reports the tls hash it was created under",
 "C15": "a host published again with new labels supersedes the known one",
 "C17": "a timeout in the retry window is not swallowed (retry flag consumed where the decision is taken)",
 "C18": "END_STREAM goes out with the last granted byte of the body",
 "C19": "the dump mark is taken before the configuration is snapshotted",
}
R16 = {
 "C01": "the clone of a codec frame shares no map with the original",
 "C03": "a fired global timeout is remembered in a flag nothing lowers and doRetry reads it before it opens an attempt (a timeout in the retry window still ends the request)",
 "C04": "every method condition of a route is kept, as the value matcher its configuration asks for",
 "C07": "boltv2: the crc switch of a version 2 frame is tested before the frame is decoded (a trailing CRC32 is never parsed as the next frame)",
 "C08": "boltv2: the crc switch of a version 2 frame is tested before the frame is decoded",
 "C10": "the ping-pong pool counts a request while it holds the mutex the close handling takes; the TCP proxy handles an upstream close only after the connection was accounted and replays an early one; a downstream stream reset before its request is complete is ended by the reset itself, and the phases run only for a stream they claimed; the reply of a termination resets the upstream request still in flight",
 "C12": "router updates are serialised by a manager mutex and recorded inside the lock that publishes the routers",
 "C13": "the pool-keying tls hash covers the root certificates themselves, not only their subjects; an sds context without validation config verifies against its static ca_cert, and 'no validation' is decided on the config, never on a secret's name",
 "C14": "doRetry re-reads the response mark after its interval, so a request terminated meanwhile is not sent upstream again; the local reply detaches the upstream stream that is still open and drops a reset flagged meanwhile",
 "C17": "xds: retry_on is converted condition by condition with the retriable status codes; the direct response body is read from every kind of DataSource specifier (exhaustive over the oneof); a fired global timeout is sticky and stops the retries",
 "C20": "every raw (json.RawMessage) section of the bootstrap config is redacted before the dump (computed from the type)",
}
R17 = {
 "C01": "the HTTP/1 client only looks at the request body buffer, it never hands it over as a reader that drains it (a retry forwards the same body)",
 "C02": "behind a write attempt every return of the connection's write passes the error check that closes the connection on a write timeout (a partly written frame is never followed by another frame)",
 "C03": "setting up a retry neither stops nor clears the global response timer",
 "C04": "the default route handler hands out the route the matcher chose: it refuses only when there is none, never because of cluster state",
 "C06": "the weight handed to the weighted round-robin scheduler is the host's configured weight on every path (no health-dependent weight)",
 "C07": "need-more-data always waits: no amount of buffered bytes turns it into another verdict",
 "C11": "the relay of late writes to a handed-over connection never removes the connection from the transfer map",
 "C12": "SetRouter records the router_configs path the update carries, unconditionally",
 "C13": "an sds tls context is rebuilt on every config update, or the comparison that skips the rebuild covers every config field the context is built from",
 "C14": "every stream filter factory hands the chain a filter object made for that stream, never one kept in the factory",
 "C15": "every weighted cluster entry carries the criteria built from its own metadata_match, unconditionally",
 "C17": "setting up a retry neither stops nor clears the global response timer; every configured header addition becomes one addition (pairs only appended, none replaced or skipped)",
 "C18": "the byte count of a flow-control window is written only by the window type's own operations",
 "C19": "no list whose order is meaningful on reload (extends, filters, chains, routes, virtual hosts, weighted clusters, hosts) is sorted on the dump path",
}
R18 = {
 "C03": "the global timer notes its expiry in the sticky flag before its CAS on the response mark",
 "C04": "a route whose regex header or method condition does not compile is refused",
 "C07": "bolt and boltv2 decode a frame only when its protocol code byte is their own",
 "C08": "bolt and boltv2 decode a frame only when its protocol code byte is their own",
 "C09": "a pool that dials before it creates the codec client tells the client that it is connected; a pooled client removes its pool entry by identity, not by key",
 "C10": "a pooled client removes its pool entry by identity; the multiplex pool remembers a go-away in a word the reconnect logic never rewrites",
 "C11": "the stage manager releases the main goroutine once (every wg.Done behind a one-shot CAS)",
 "C13": "configured ALPN protocols are stored lower-cased and trimmed",
 "C14": "ip_access rejects an address it cannot evaluate against a deny list",
 "C17": "the global timer notes its expiry before the CAS on the response mark; the xDS conversion carries the header actions and host_rewrite_literal; every route rule type applies the configured path action",
 "C20": "the sds_source of a typed TLS context is replaced by a fresh copy that passed the raw-JSON redactor",
}
R19 = {
 "C01": "the HTTP/2 request header encoder emits every received header value whole",
 "C03": "nothing on the retry path writes the stored response (a reply installed meanwhile is not wiped)",
 "C04": "the attribute bag a DSL route evaluates over is made for the lookup (fresh allocation, no pool)",
 "C06": "the route's plain cluster is built from cluster_name only, never from a weighted entry",
 "C11": "a request decoded after the goaway frame was sent is still served",
 "C12": "a listener update rebuilds the tls context manager from the recorded configuration (no skip that ignores the inspector flag)",
 "C13": "a listener update rebuilds the tls context manager (no skip that ignores the inspector flag); the client's chain is verified in every handshake, never answered from a store",
 "C14": "nothing on the retry path writes the stored response; on a grpc listener the error a filter's own answer is stored as can never be nil",
 "C15": "a cluster's load balancer and host set are installed only by its constructor and UpdateHosts",
 "C16": "the consecutive-result counters are owned by the checker that is created, never fetched from a package-level store",
 "C17": "setupRetry never refuses after it withdrew the current attempt",
 "C18": "a body writer parks only while the stream's send window is not positive (no minimum fragment)",
 "C19": "producing the redacted dump writes only memory the redactor allocated, also below the first level of a copied map",
 "C20": "v2.TLSConfig is decoded by its struct tags only (no custom decoder accepting names the raw redactor does not know); a one-level copy is not handed to a nested writer",
}
R20 = {
 "C03": "on every path of onUpstreamHeaders that retries, the abandoned response is dropped from the stream before setupRetry",
 "C08": "the recover handler of the goroutine that parses an http1 connection closes the connection",
 "C09": "the keepalive records the heartbeat's stream and resets it when the heartbeat times out",
 "C11": "no StageManager method works on a copy of the manager (value receiver that writes, locks or calls a pointer method)",
 "C14": "the ip_access single-address table is written and read with the canonical text of the parsed address",
 "C16": "every send on a session checker channel is a select case beside <-stop",
 "C17": "the xDS conversion carries host_rewrite_header",
 "C18": "the error of every DATA frame write flows into a return value; the connection error FLOW_CONTROL_ERROR of a WINDOW_UPDATE is raised only for the connection window; a DATA frame the server refuses with a stream error is returned to the connection window first",
}
R21 = {
 "C01": "the key and value views of a decoded header block end with their capacity (a replacement written in place cannot run into the rest of the retained frame)",
 "C03": "nothing that stops or clears the global response timer can precede a setupRetry call in its caller (a granted retry is still bounded by the global timeout)",
 "C07": "every Framer field the parse of a frame writes is reset at the entry of MFramer.ReadFrame or restored when the header block is incomplete (a re-parse is idempotent on framer state)",
 "C08": "the stream layer sizes body buffers from constants and the length of bytes already received, never from an announced length such as content-length",
 "C09": "removeFromPool reads the idle list on every path (an ended client leaves it whatever else is true of it)",
 "C10": "a pool's host, whose resource manager and gauges it charges and releases at event time, is set when the pool is built and nothing calls UpdateHost",
 "C11": "the HTTP/1 drain mark of a server connection is only ever raised (every store is the constant true), the transfer listener raises it and endStream reads it",
 "C12": "the tls context manager a listener update installs is built after, and from the object in which, the new inspector flag and tls contexts were recorded",
 "C13": "the tls context manager a listener update installs is built after, and from the object in which, the new inspector flag and tls contexts were recorded",
 "C17": "nothing that stops or clears the global response timer can precede a setupRetry call in its caller",
 "C20": "redactTLSConfig replaces sds_source under no condition other than its presence",
}
R22 = {
 "C01": "the byte the tls inspector peeked is handed over by the read that finds it pending; a truncated HTTP/2 header block is refused; a forwarded HTTP/1 message gets no default Content-Type; the HTTP/1 client hands over the final response, never an interim 1xx",
 "C03": "Timeout.GlobalTimeout is written only by parseProxyTimeout, whose last step makes it positive",
 "C04": "the index recorded for a virtual host's domains is its slot in the live table (no configured virtual host is skipped)",
 "C05": "a HostSet.Range callback of a load balancer ends the scan only after it stored a result",
 "C06": "EdfLoadBalancer.refresh skips the scheduler on configuration only, never on the slow-start factors of the moment",
 "C07": "bytes a read returns together with EOF are delivered",
 "C08": "while a refused frame can stay in the read buffer the HTTP/2 Dispatch loops continue only under err == nil; HEADERS on a half-closed (remote) stream is refused before it can be taken for trailers",
 "C09": "the ping-pong pool raises its connection count under clientMux",
 "C10": "the ping-pong pool raises its connection count in the critical section that compared it with max_connections",
 "C11": "every turn of the read loop passes the test of the listener's stop channel",
 "C13": "GetConfigForClient answers only with a provider reached by the ordered walk over mng.providers; shared sds providers are registered only when nothing can refuse the configuration any more",
 "C15": "the pre-index builder stores an entry into its trie only where a look-up of that position found none",
 "C17": "Timeout.GlobalTimeout is written only by parseProxyTimeout; a request-supplied global timeout is accepted only when positive; a scheme redirect keeps the host text (IPv6 brackets)",
 "C18": "the framer's read limit never derives from a peer's SETTINGS value; HEADERS on a half-closed (remote) stream is refused; a truncated header block is refused",
 "C19": "every configmanager recorder stores what it is given on every path",
 "C20": "redactRawJSON decodes into an empty interface (a document of any shape is walked)",
}
R23 = {
 "C01": "a streamed HTTP/2 response keeps the upstream's content-length (0 is forced for buffered bodies only); an HTTP/1 request forwarded to HTTP/2 keeps the received path when no rewrite happened",
 "C02": "the mirror filter's context has variables of its own",
 "C08": "HeaderMap.Range / ByteSize index a header value only under a test of its length; tars: TarsGo's recursive field skipping is reached only behind a non-recursive validation of the package (known finding C08.B18)",
 "C11": "the tls hand-over record is taken after the handshake and the restored connection knows its version; NoticeStop writes the stop action of a Reload only behind the test of the manager's state",
 "C16": "a stopped strict-dns cluster bumps its version and no resolver callback sends on a channel outside a select with the stop channel",
 "C17": "an HTTP/1 local reply with a non-HTTP header map is sent with its status (default arm of the type switch)",
 "C18": "the HTTP/2 client skips interim 1xx responses",
}
R24 = {
 "C01": "the tars encoder only reads the retained package (no in-place patch of rawData)",
 "C05": "EdfLoadBalancer.ChooseHost returns nil only under size == 0, the only host unhealthy, or firstHealthyHost == nil",
 "C06": "the weighted draw is only measured against clusterWeight values read from the merged table",
 "C09": "the HTTP/1 client raises OnGoAway before the response is handed over",
 "C10": "a cluster update carries the resource manager's counters over whatever the cluster type",
 "C11": "a relayed response is dequeued only after the transfer socket was dialed",
 "C13": "sdsProvider.update never writes the provider's long-lived secret info",
 "C18": "a header block split across reads is parsed as in one read (the framer state the parse wrote is restored)",
 "C20": "redactJSONValue descends into every member and element (no short-circuit on the accumulated flag)",
}
GENERIC = "generic hygiene over the property's packages: no loop-variable address escapes its iteration, every mutex acquired in a function is released on every path to its return and not re-acquired in a callee, a field accessed through sync/atomic is never accessed plainly outside construction (frozen exceptions), storage given back to a pool is not returned or stored, no append onto a loop-invariant slice whose result is kept, no signed remainder of a converted unsigned 64-bit value or of a wrapping signed 32-bit counter, no remainder of a 32-bit sum with an unreduced atomic counter, a receiver field a method rewrites is not retained by what the method hands it to, a key looked up in a map field under a mutex and inserted when absent is inserted in the same critical section"
props = [json.loads(l)['id'] for l in open('/verif/properties.jsonl')]
checks, na = [], []
for p in props:
    dec, tech, notdec = T[p]
    if p in R9:
        dec = dec + "; " + R9[p]
    if p in R10:
        dec = dec + "; " + R10[p]
    if p in R11:
        dec = dec + "; " + R11[p]
    if p in R12:
        dec = dec + "; " + R12[p]
    if p in R13:
        dec = dec + "; " + R13[p]
    if p in R14:
        dec = dec + "; " + R14[p]
    if p in R15:
        dec = dec + "; " + R15[p]
    if p in R16:
        dec = dec + "; " + R16[p]
    if p in R17:
        dec = dec + "; " + R17[p]
    if p in R18:
        dec = dec + "; " + R18[p]
    if p in R19:
        dec = dec + "; " + R19[p]
    if p in R20:
        dec = dec + "; " + R20[p]
    if p in R21:
        dec = dec + "; " + R21[p]
    if p in R22:
        dec = dec + "; " + R22[p]
    if p in R23:
        dec = dec + "; " + R23[p]
    if p in R24:
        dec = dec + "; " + R24[p]
    dec = dec + "; " + GENERIC
    tech = tech + ", lock-balance and atomic-discipline dataflow"
    if p in R8:
        dec = dec + "; " + R8[p][0]
        if R8[p][1]:
            tech = tech + ", " + R8[p][1]
    if p in CLAIMED:
        checks.append({
            "property_id": p,
            "quick_cmd": f"bin/mosncheck --prop {p} --tier quick",
            "thorough_cmd": f"bin/mosncheck --prop {p} --tier thorough",
            "evidence_file": f"evidence/{p}.json",
            "replay_cmd_template": "bin/mosncheck --replay {path}",
            "engine": "mosncheck",
            "level_claimed": {"category": "other",
              "text": "Static analysis of /repo's current source (type-checked SSA, CFG dominance, call graph); no execution. Decides these structural clauses, each a necessary condition of the property, on all paths of the code: " + dec + ". It decides the shape of the code, not the behaviour itself; a violated clause is reported with file:line, rule and instance.",
              "design_ref": f"DESIGN.md section 4 ({p})"},
            "level_note": "Not decided: " + notdec + ". Trusted base: go/types, go/ssa, go/packages (x/tools v0.29.0), the Go toolchain, the per-rule idiom tables in /verif/checker, assumptions listed in the evidence file. Rule floors (minimum instance counts) and unresolved anchors fail the check. The thorough tier additionally loads the whole module and replays the seeded mutants of /verif/mutants as a self-test (never a verdict).",
            "technique": "static analysis: " + tech,
        })
    else:
        na.append({"property_id": p, "reason": "check not built yet (work in progress); planned static clauses: " + dec})
m = {"version": 1,
 "setup_cmd": "cd /verif/checker && GOFLAGS=-mod=mod GOPROXY=off GOSUMDB=off GOTOOLCHAIN=local GOWORK=off go build -o /verif/bin/mosncheck .",
 "hooks": {"guard": "verif", "enable": "none needed: static analysis reads the source; no hooks are compiled into /repo", "baseline_off_cmd": "bash -c \"$(jq -r .cmd /root/.vp/BASELINE.json)\"", "source_commits": [], "add_only": True},
 "engines": [{"name": "mosncheck", "path": "checker", "serves_properties": props, "kind_free_text": "repo-specific static analyser on go/types + go/ssa + CFG dominance + call graph (x/tools v0.29.0); one rule file per property"}],
 "checks": checks, "not_applicable": na,
 "notes": "All checks are static analyses of /repo's current working tree; genuine defects found were repaired by fix: commits in /repo and are listed in known_findings.json."}
json.dump(m, open('/verif/MANIFEST.json', 'w'), indent=1)
print("claimed", len(checks), "n/a", len(na))
