#!/bin/bash
# runs the quick tier of every claimed check; prints one line each; exit 1 if any fails
cd /verif
rc=0
for p in $(jq -r '.checks[].property_id' MANIFEST.json); do
  out=$(${MOSNCHECK:-bin/mosncheck} --prop $p --tier ${1:-quick} 2>&1); code=$?
  echo "$out" | grep -E "^mosncheck|SELFTEST|mutants:" | tr '\n' ' '; echo " exit=$code"
  [ $code -ne 0 ] && { rc=1; echo "$out" | grep -A2 FAIL | head -20; }
done
python3 /verif/tools/validate_evidence.py || rc=1
exit $rc
