#!/usr/bin/env python3
"""patch2mutant.py [--forward] <patch.diff> <name> <expect> [prop-json]  -- turn a fix patch into the mutant that reverts it (--forward: a seeded patch into the mutant that applies it).
Each hunk becomes one replacement (old = the lines the fix left, new = the lines it found); prints the spec as JSON, or
appends it to /verif/mutants/<prop-json> when given. The `old` text of every hunk must occur exactly once in /repo's file."""
import sys, json, re
FORWARD = '--forward' in sys.argv
if FORWARD: sys.argv.remove('--forward')
patch, name, expect = sys.argv[1], sys.argv[2], sys.argv[3]
hunks = []
cur_file = None
cur = None
for line in open(patch).read().split('\n'):
    if line.startswith('+++ '):
        cur_file = line[4:].strip()
        if cur_file.startswith('b/'): cur_file = cur_file[2:]
        continue
    if line.startswith('--- ') or line.startswith('diff ') or line.startswith('index '):
        continue
    if line.startswith('@@'):
        cur = {'file': cur_file, 'pre': [], 'post': []}
        hunks.append(cur)
        continue
    if cur is None: continue
    if line.startswith('+'): cur['post'].append(line[1:])
    elif line.startswith('-'): cur['pre'].append(line[1:])
    elif line.startswith(' '): cur['pre'].append(line[1:]); cur['post'].append(line[1:])
    elif line == '': pass
specs = []
for h in hunks:
    if h['file'].endswith('_test.go'): continue
    old, new = '\n'.join(h['post']), '\n'.join(h['pre'])
    if FORWARD: old, new = new, old
    src = open('/repo/' + h['file']).read()
    # trim common context until unique is not needed; just verify
    if src.count(old) != 1:
        print('hunk of', h['file'], 'occurs', src.count(old), 'times', file=sys.stderr); sys.exit(1)
    specs.append({'file': h['file'], 'old': old, 'new': new})
m = {'name': name, 'file': specs[0]['file'], 'old': specs[0]['old'], 'new': specs[0]['new']}
if len(specs) > 1:
    m['more'] = [({'old': s['old'], 'new': s['new']} if s['file'] == m['file'] else s) for s in specs[1:]]
m['expect'] = expect
if len(sys.argv) > 4:
    f = '/verif/mutants/' + sys.argv[4]
    L = json.load(open(f))
    L = [x for x in L if x['name'] != name] + [m]
    json.dump(L, open(f, 'w'), indent=2, ensure_ascii=False)
    print('added', name, 'to', f)
else:
    print(json.dumps(m, indent=2))
