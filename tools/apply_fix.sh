#!/bin/bash
# apply_fix.sh <fix dir under /tmp/fixes/r10> <pkg dir of the repro test> <go test flags or ""> : verify a delivered fix in /tmp/vfy
# (repro fails before, passes after, package tests pass after); prints a verdict. Does NOT touch /repo.
export GOFLAGS=-mod=mod GOPROXY=off GOSUMDB=off GOTOOLCHAIN=local GOWORK=off
d=${FIXROOT:-/tmp/fixes/r10}/$1; pkg=$2; flags=$3
cd /tmp/vfy && git checkout -q -- . && git clean -fdq && git checkout -q --detach $(git -C /repo rev-parse HEAD) || exit 2
find $d -name '*_test.go' | while read t; do
  rel=$(dirname "${t#$d/}"); if [ "$rel" = "." ]; then cp $t $pkg/; else mkdir -p $rel; cp $t $rel/; fi
done
run=$(grep -ho 'func Test[A-Za-z0-9_]*' $(find $d -name '*_test.go') | sed 's/func //' | paste -sd'|')
echo "--- BEFORE ($run)"; timeout 300 go test -vet=off -count=1 $flags -run "$run" ./$pkg/ 2>&1 | grep -E "^(ok|FAIL|---|panic|fatal)" | head -6
git apply $d/patch.diff || { echo "PATCH DOES NOT APPLY"; exit 2; }
echo "--- AFTER"; timeout 300 go test -vet=off -count=1 $flags -run "$run" ./$pkg/ 2>&1 | grep -E "^(ok|FAIL|---|panic|fatal)" | head -6
echo "--- PACKAGE"; timeout 900 go test -vet=off -count=1 $flags ./$pkg/ 2>&1 | grep -E "^(ok|FAIL|--- FAIL|panic)" | head -8
git checkout -q -- . ; git clean -fdq
