#!/bin/bash
# proc_seed_wt.sh <Cxx-n> [prop ...] : like proc_seed.sh, but the checks analyse the agent's worktree /tmp/wt/<Cxx> with the
# patch applied (VERIF_REPO, binary bin/mosncheck.scratch) instead of patching /repo: for triage while /repo is in use.
sid=$1; shift; id=${sid%%-*}; props=${@:-$id}
src=/tmp/seed/$sid; wt=/tmp/wt/$id
t=$(ls $src/*_test.go | head -1); tn=$(basename $t)
pkg=$(cd $wt && git status --porcelain --untracked-files=all | grep "$tn" | awk '{print $2}' | head -1 | xargs dirname)
echo "== $sid pkg=$pkg test=$tn"
VFY=$wt /verif/tools/verify_seed.sh $sid $pkg $src 2>&1 | grep -v "^WARNING conda" | cut -c1-300
(cd $wt && git checkout -q -- . && git clean -fdq && git apply $src/patch.diff) || exit 2
echo "== check (worktree)"
cd /verif
for p in $props; do VERIF_REPO=$wt bin/mosncheck.scratch --prop $p --tier quick | grep -v "^  rule\|KNOWN-FINDING" | cut -c1-400 | head -${LINES_MAX:-12}; done
