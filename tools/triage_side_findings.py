#!/usr/bin/env python3
# fills the triage column of SIDE_FINDINGS.md from the table below (re-runnable)
import re
T = {
 "S1":"REPAIRED 7c4a8595e (DESIGN §5 row 48, C16.R5)", "S3":"REPAIRED 957200927 (row 38, C12.R4)", "S4":"REPAIRED d999eb86a (row 39, C12.R8); the sibling refusal by the TLS context is recorded as KNOWN FINDING C12.R8",
 "S7":"REPAIRED c9ce639fb (row 34, C04.R14)", "S8":"REPAIRED 042d06da3 (row 31, C04.R11)", "S9":"REPAIRED 7276bba73 (row 32, C04.R12)", "S10":"REPAIRED f8dc53c9e (row 33, C04.R13)",
 "S13":"BY DESIGN: an existing test asserts that maglev answers nil without a hash policy; not a violation of C05 (no unhealthy or foreign host is returned)",
 "S15":"REPAIRED e4eea72ce (row 35, C06.R2)", "S16":"REPAIRED 3926ceb21 (row 36, C06.R8)", "S20":"REPAIRED d70492ec8 (row 41, C14.R9)", "S24":"REPAIRED 96fdc68ba (row 37, C15.R15)",
 "S26":"KNOWN FINDING C08.B11 (two keys; demonstration and proposed fix in findings/C08-h2-stream-error-frame-not-consumed; not repaired: +43 lines over four functions)",
 "S29":"REPAIRED 2d2747175 (row 54, C18.W15)", "S30":"REPAIRED 8ccd0ded0 (row 55, C18.W16)",
 "S31":"BY DESIGN: the reference implementation has the same behaviour (C18 is compatibility with the reference)",
 "S32":"REPAIRED 07c437b11 (row 42, C10.DECODE)", "S33":"REPAIRED 6805336e2 (row 57, C10.RESET)", "S35":"REPAIRED 8ff9cf8fe (row 45, C17.R15)", "S36":"REPAIRED 5dd5d9dd2 (row 46, C17.R16)", "S37":"REPAIRED 770f51fbc (row 47, C17.R17)",
 "S41":"REPAIRED 59ee7eea0 (row 40, C19.R13)", "S42":"REPAIRED bafefc293 (row 43, C03.R13)", "S43":"REPAIRED b661aeb4c (row 44, C03.R14)", "S47":"REPAIRED 40344ca3a (row 49, C13.R15)",
 "S52":"REPAIRED 8c9a91938 (row 50, C20.R6)", "S55":"REPAIRED a4811459b (row 51, C01.R13)", "S59":"REPAIRED 5749bd1ea (row 52, C02.R18)", "S61":"REPAIRED 5d6925587 (row 56, C11.O14)", "S62":"REPAIRED 2a0d69e5b (row 53, C11.O15)",
}
try:
    exec(open('/verif/tools/triage_extra.py').read())
except FileNotFoundError:
    pass
out=[]
for l in open('/verif/SIDE_FINDINGS.md'):
    m=re.match(r'\| (S\d+) \|', l)
    if m and m.group(1) in T:
        cells=l.rstrip('\n').split('|')
        cells[-2]=' '+T[m.group(1)]+' '
        l='|'.join(cells)+'\n'
    out.append(l)
open('/verif/SIDE_FINDINGS.md','w').write(''.join(out))
print(sum(1 for l in out if re.match(r'\| S\d+ \|',l) and l.rstrip().split('|')[-2].strip()), 'rows triaged')
