#!/bin/bash
# commit_fix.sh <fix dir under /tmp/fixes/r10> <name under /verif/fixes> <subject line (without "fix: ")> : body is read from stdin
d=${FIXROOT:-/tmp/fixes/r10}/$1; name=$2; subject=$3
body=$(cat)
cd /repo || exit 2
[ -z "$(git status --porcelain)" ] || { echo "/repo not clean"; exit 2; }
git apply $d/patch.diff || { echo "patch does not apply"; exit 2; }
git add -A
git commit -q -m "fix: $subject" -m "$body" || exit 2
mkdir -p /verif/fixes/$name
cp $d/patch.diff /verif/fixes/$name/patch.diff
[ -f $d/NOTES.md ] && cp $d/NOTES.md /verif/fixes/$name/NOTES.md
find $d -name '*_test.go' -exec cp {} /verif/fixes/$name/ \;
git log --oneline -1
