#!/usr/bin/env python3
# lists mutants whose `old` pattern no longer occurs exactly once in /repo (they would be SKIPPED by the self-test)
import json,glob,os
n=0
for f in sorted(glob.glob('/verif/mutants/*.json')):
    for m in json.load(open(f)):
        for e in [m]+m.get('more',[]):
            fl=e.get('file',m['file'])
            c=open('/repo/'+fl).read().count(e['old'])
            if c!=1:
                n+=1; print(os.path.basename(f), m['name'], fl, 'count=',c)
print(n,'stale')
