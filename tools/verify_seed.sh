#!/bin/bash
# verify_seed.sh <id-n> <pkg dir relative to repo> : run the seed's demo test in /tmp/vfy with and without patch.diff
export GOFLAGS=-mod=mod GOPROXY=off GOSUMDB=off GOTOOLCHAIN=local GOWORK=off
sid=$1; pkg=$2; src=${3:-/tmp/seed/$sid}
V=${VFY:-/tmp/vfy}; [ -d $V ] || git -C /repo worktree add --detach $V HEAD >/dev/null
cd $V && git checkout -q -- . && git clean -fdq
t=$(ls $src/*_test.go | head -1); cp $t $pkg/
run=$(grep -o 'func Test[A-Za-z0-9_]*' $t | sed 's/func //' | paste -sd'|')
git apply $src/patch.diff || exit 2
echo "--- WITH patch"; go test -vet=off -count=1 -run "$run" ./$pkg/ 2>&1 | tail -6
git checkout -q -- .
echo "--- WITHOUT patch"; go test -vet=off -count=1 -run "$run" ./$pkg/ 2>&1 | tail -3
git clean -fdq
